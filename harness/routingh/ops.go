// Package routingh is the shared library of the routing-family harnesses
// (C08, C09, C10). It defines the operation alphabet that is applied to a
// real routing.Manager (and, through it, to the four route tables), the
// canonical observation of the implementation state after every operation
// (a projected dump and a 64-bit digest of it that the Coq model recomputes),
// the implementation-side monitors of the three properties, and the
// generators. Everything is deterministic: the only clock is the virtual
// clock of the enclosing testing/synctest bubble.
package routingh

import (
	"fmt"
	"math/big"
	"net"
	"sort"
	"strings"
	"time"

	"github.com/postalsys/muti-metroo/internal/identity"
	"github.com/postalsys/muti-metroo/internal/routing"
)

// Operation codes (shared with Model/RouteTable.v: decode_op).
const (
	OpAdv      = 1  // Manager.ProcessRouteAdvertise
	OpWd       = 2  // Manager.ProcessRouteWithdraw
	OpDisc     = 3  // Manager.HandlePeerDisconnect
	OpClean    = 4  // Manager.CleanupStaleRoutes
	OpTick     = 5  // virtual time passes
	OpAddLocal = 6  // Manager.AddLocalRoute
	OpRmLocal  = 7  // Manager.RemoveLocalRoute
	OpAddDyn   = 8  // Manager.AddDynamicRoute
	OpRmDyn    = 9  // Manager.RemoveDynamicRoute
	OpTAdd     = 10 // Table.AddRoute (raw route)
	OpTRm      = 11 // Table.RemoveRoute

	OpDAdv      = 20 // Manager.ProcessDomainRouteAdvertise
	OpDDisc     = 21 // Manager.HandlePeerDisconnectDomain
	OpDClean    = 22 // Manager.CleanupStaleDomainRoutes
	OpDAddLocal = 23 // Manager.AddLocalDomainRoute
	OpDRmLocal  = 24 // Manager.RemoveLocalDomainRoute
	OpDTRm      = 25 // DomainTable.RemoveRoute

	OpFAdv      = 30 // Manager.ProcessForwardRouteAdvertise
	OpFDisc     = 31 // Manager.HandlePeerDisconnectForward
	OpFClean    = 32 // Manager.CleanupStaleForwardRoutes
	OpFAddLocal = 33 // Manager.AddLocalForwardRoute
	OpFRmLocal  = 34 // Manager.RemoveLocalForwardRoute
	OpFTRm      = 35 // ForwardTable.RemoveRoute

	OpAAdv   = 40 // Manager.ProcessAgentRouteAdvertise
	OpADisc  = 41 // Manager.HandlePeerDisconnectAgent
	OpAClean = 42 // Manager.CleanupStaleAgentRoutes
	OpATRm   = 45 // AgentTable.RemoveRoute

	OpLookup  = 50 // Manager.Lookup of an explicit address
	OpDLookup = 51 // Manager.LookupDomain of an explicit name
	OpFLookup = 52 // Manager.LookupForward
	OpALookup = 53 // Manager.LookupAgent

	OpLookupAll  = 54 // Manager.Lookup of every boundary address of every pool network
	OpDLookupAll = 55 // Manager.LookupDomain of every name derived from every pool string
	OpFLookupAll = 56 // Manager.LookupForward of every pool string
	OpALookupAll = 57 // Manager.LookupAgent of every agent index
	OpLookupB    = 58 // Manager.Lookup of boundary address K of pool network NetIdx
	OpDLookupD   = 59 // Manager.LookupDomain of derived name K of pool string StrIdx
)

// Net is a network as the wire decoder (flood.protocolRouteToIPNet) or
// net.ParseCIDR can produce it: an address family, the address bytes (not
// necessarily masked) and a prefix length (not necessarily <= bits).
type Net struct {
	Fam  int    `json:"fam"`  // 4 or 6
	IP   string `json:"ip"`   // decimal value of the 32/128-bit address
	Ones int    `json:"ones"` // prefix length as carried on the wire (0..255)
}

// Ent is one entry of an advertisement.
type Ent struct {
	Net    *Net   `json:"net,omitempty"`
	Metric uint16 `json:"metric"`
	Name   string `json:"name,omitempty"`   // domain pattern or forward key
	Target string `json:"target,omitempty"` // forward target
}

// Op is one operation of a history.
type Op struct {
	Code   int    `json:"op"`
	Peer   int    `json:"peer,omitempty"`
	Origin int    `json:"origin,omitempty"`
	Agent  int    `json:"agent,omitempty"`
	Seq    uint64 `json:"seq,omitempty"`
	Metric uint16 `json:"metric,omitempty"`
	Path   []int  `json:"path,omitempty"`
	Ents   []Ent  `json:"ents,omitempty"`
	Ms     int64  `json:"ms,omitempty"` // tick length or maxAge, milliseconds
	Net    *Net   `json:"net,omitempty"`
	Name   string `json:"name,omitempty"`
	Target string `json:"target,omitempty"`
	Is16   int    `json:"is16,omitempty"` // lookup address form: 0 = 4 bytes, 1 = 16 bytes, 2 = malformed length
	Addr   string `json:"addr,omitempty"` // lookup address value, decimal
	Idx    int    `json:"idx,omitempty"`  // pool index (OpLookupB: network, OpDLookupD: string)
	K      int    `json:"k,omitempty"`    // which boundary address / derived name
}

// Pools are the per-history tables that operations refer to by index in the
// encoding for the model (keeps cases.v small): networks, strings, and large
// numbers (sequence numbers, explicit lookup addresses).
type Pools struct {
	Nets []*Net   `json:"nets"`
	Strs []string `json:"strs"`
	Nums []string `json:"nums"`
}

func (p *Pools) netIdx(n *Net) int {
	for i, x := range p.Nets {
		if *x == *n {
			return i
		}
	}
	p.Nets = append(p.Nets, n)
	return len(p.Nets) - 1
}
func (p *Pools) strIdx(s string) int {
	for i, x := range p.Strs {
		if x == s {
			return i
		}
	}
	p.Strs = append(p.Strs, s)
	return len(p.Strs) - 1
}
func (p *Pools) numIdx(s string) int {
	for i, x := range p.Nums {
		if x == s {
			return i
		}
	}
	p.Nums = append(p.Nums, s)
	return len(p.Nums) - 1
}

// BoundaryAddrs lists the lookups on and around the edges of a network
// (mirrored by Model/RouteTable.v: boundary_addrs).
func BoundaryAddrs(n *Net) []Op {
	bits := 32
	if n.Fam == 6 {
		bits = 128
	}
	ones := n.Ones
	if ones > bits {
		ones = bits
	}
	ip := bigOf(n.IP)
	one := big.NewInt(1)
	host := new(big.Int).Lsh(one, uint(bits-ones))
	base := new(big.Int).Div(ip, host)
	base.Mul(base, host)
	last := new(big.Int).Add(base, host)
	last.Sub(last, one)
	max := new(big.Int).Lsh(one, uint(bits))
	cands := []*big.Int{base, new(big.Int).Add(base, one), last, new(big.Int).Add(last, one)}
	if base.Sign() > 0 {
		cands = append(cands, new(big.Int).Sub(base, one))
	}
	cands = append(cands, ip)
	var out []Op
	for _, v := range cands {
		if v.Cmp(max) >= 0 {
			continue
		}
		if n.Fam == 4 {
			out = append(out, Op{Code: OpLookup, Is16: 0, Addr: v.String()})
			m := new(big.Int).Lsh(big.NewInt(0xffff), 32)
			out = append(out, Op{Code: OpLookup, Is16: 1, Addr: m.Add(m, v).String()})
		} else {
			out = append(out, Op{Code: OpLookup, Is16: 1, Addr: v.String()})
		}
	}
	return out
}

func asciiUpper(s string) string {
	b := []byte(s)
	for i, c := range b {
		if c >= 'a' && c <= 'z' {
			b[i] = c - 32
		}
	}
	return string(b)
}

func asciiTrim(s string) string {
	sp := func(c byte) bool { return (c >= 9 && c <= 13) || c == 32 }
	for len(s) > 0 && sp(s[0]) {
		s = s[1:]
	}
	for len(s) > 0 && sp(s[len(s)-1]) {
		s = s[:len(s)-1]
	}
	return s
}

// DerivedNames lists the domain lookups derived from a pool string (mirrored
// by Model/RouteTable.v: derived_names).
func DerivedNames(s string) []string {
	b := asciiTrim(s)
	if strings.HasPrefix(b, "*.") {
		b = b[2:]
	}
	// upper-case first label only: the rest of the name is already in map-key form
	uf := asciiUpper(b)
	if label, rest, ok := strings.Cut(b, "."); ok {
		uf = asciiUpper(label) + "." + rest
	}
	return []string{s, b, "a." + b, "B.a." + b, asciiUpper(b), "." + b, b + ".", "x-1." + asciiUpper(b), uf}
}

// Expand turns the pool-relative and "all" lookups into explicit lookups.
func (p *Pools) Expand(op Op) []Op {
	switch op.Code {
	case OpLookupAll:
		var out []Op
		for _, n := range p.Nets {
			out = append(out, BoundaryAddrs(n)...)
		}
		return out
	case OpLookupB:
		if op.Idx < len(p.Nets) {
			if b := BoundaryAddrs(p.Nets[op.Idx]); op.K < len(b) {
				return b[op.K : op.K+1]
			}
		}
		return nil
	case OpDLookupAll:
		var out []Op
		for _, s := range p.Strs {
			for _, n := range DerivedNames(s) {
				out = append(out, Op{Code: OpDLookup, Name: n})
			}
		}
		return out
	case OpDLookupD:
		if op.Idx < len(p.Strs) {
			if d := DerivedNames(p.Strs[op.Idx]); op.K < len(d) {
				return []Op{{Code: OpDLookup, Name: d[op.K]}}
			}
		}
		return nil
	case OpFLookupAll:
		var out []Op
		for _, s := range p.Strs {
			out = append(out, Op{Code: OpFLookup, Name: s})
		}
		return out
	case OpALookupAll:
		var out []Op
		for a := 0; a < NAgents; a++ {
			out = append(out, Op{Code: OpALookup, Agent: a})
		}
		return out
	}
	return []Op{op}
}

// NAgents is the size of the agent identifier pool; index 0 is the local agent.
const NAgents = 8

func AgentID(i int) identity.AgentID {
	var id identity.AgentID
	for j := range id {
		id[j] = byte(0x10*(i+1) + j)
	}
	return id
}

var agentIdx = func() map[identity.AgentID]int {
	m := map[identity.AgentID]int{}
	for i := 0; i < NAgents; i++ {
		m[AgentID(i)] = i
	}
	return m
}()

func idxOf(id identity.AgentID) uint64 {
	if i, ok := agentIdx[id]; ok {
		return uint64(i)
	}
	return 99
}

func pathIDs(p []int) []identity.AgentID {
	if p == nil {
		return nil
	}
	out := make([]identity.AgentID, len(p))
	for i, x := range p {
		out[i] = AgentID(x)
	}
	return out
}

func bigOf(s string) *big.Int {
	b, ok := new(big.Int).SetString(s, 10)
	if !ok {
		panic("bad number " + s)
	}
	return b
}

// IPNet builds the *net.IPNet exactly like flood.protocolRouteToIPNet does.
func (n *Net) IPNet() *net.IPNet {
	if n == nil {
		return nil
	}
	size, bits := 4, 32
	if n.Fam == 6 {
		size, bits = 16, 128
	}
	ip := make(net.IP, size)
	bigOf(n.IP).FillBytes(ip)
	return &net.IPNet{IP: ip, Mask: net.CIDRMask(n.Ones, bits)}
}

func NetOf(fam int, ip net.IP, ones int) *Net {
	if fam == 4 {
		ip = ip.To4()
	} else {
		ip = ip.To16()
	}
	return &Net{Fam: fam, IP: new(big.Int).SetBytes(ip).String(), Ones: ones}
}

// MustNet parses "a.b.c.d/n" or "x::y/n" WITHOUT masking the host bits; a
// leading "6:" forces the 16-byte (IPv6 family) form for IPv4-mapped input.
func MustNet(s string) *Net {
	force6 := strings.HasPrefix(s, "6:")
	s = strings.TrimPrefix(s, "6:")
	i := strings.LastIndex(s, "/")
	ip := net.ParseIP(s[:i])
	if ip == nil {
		panic("bad ip " + s)
	}
	var ones int
	fmt.Sscan(s[i+1:], &ones)
	if ip.To4() != nil && !force6 && !strings.Contains(s, ":") {
		return NetOf(4, ip, ones)
	}
	return NetOf(6, ip, ones)
}

func (n *Net) String() string {
	if n == nil {
		return "<nil>"
	}
	nn := n.IPNet()
	return fmt.Sprintf("fam%d:%s/%d", n.Fam, nn.IP.String(), n.Ones)
}

// ---------------------------------------------------------------------------
// Runner: one real routing.Manager inside the current synctest bubble.

type Runner struct {
	M     *routing.Manager
	Start time.Time
	// Last is the projection of the route returned by the most recent lookup
	// operation (nil when the lookup returned nothing).
	Last *Entry
}

func NewRunner() *Runner {
	return &Runner{M: routing.NewManager(AgentID(0)), Start: time.Now()}
}

func (r *Runner) NowMs() int64 { return time.Since(r.Start).Milliseconds() }

// LookupIP builds the address argument of a lookup operation.
func LookupIP(op Op) net.IP { return lookupIP(op) }

func lookupIP(op Op) net.IP {
	v := bigOf(op.Addr)
	switch op.Is16 {
	case 0:
		ip := make(net.IP, 4)
		v.FillBytes(ip)
		return ip
	case 1:
		ip := make(net.IP, 16)
		v.FillBytes(ip)
		return ip
	default:
		return net.IP{1, 2, 3, 4, 5} // malformed length
	}
}

// Apply runs one operation on the real implementation and returns its
// projected result (the "ret" observation).
func (r *Runner) Apply(op Op) uint64 {
	m := r.M
	b2u := func(b bool) uint64 {
		if b {
			return 1
		}
		return 0
	}
	switch op.Code {
	case OpAdv:
		ents := make([]routing.RouteEntry, len(op.Ents))
		for i, e := range op.Ents {
			ents[i] = routing.RouteEntry{Network: e.Net.IPNet(), Metric: e.Metric}
		}
		acc := m.ProcessRouteAdvertise(AgentID(op.Peer), AgentID(op.Origin), op.Seq, ents, pathIDs(op.Path), nil)
		return uint64(len(acc))
	case OpWd:
		ents := make([]routing.RouteEntry, len(op.Ents))
		for i, e := range op.Ents {
			ents[i] = routing.RouteEntry{Network: e.Net.IPNet(), Metric: e.Metric}
		}
		return b2u(m.ProcessRouteWithdraw(AgentID(op.Origin), ents))
	case OpDisc:
		return uint64(m.HandlePeerDisconnect(AgentID(op.Peer)))
	case OpClean:
		return uint64(m.CleanupStaleRoutes(time.Duration(op.Ms) * time.Millisecond))
	case OpTick:
		time.Sleep(time.Duration(op.Ms) * time.Millisecond)
		return 0
	case OpAddLocal:
		return b2u(m.AddLocalRoute(op.Net.IPNet(), op.Metric))
	case OpRmLocal:
		return b2u(m.RemoveLocalRoute(op.Net.IPNet()))
	case OpAddDyn:
		if err := m.AddDynamicRoute(op.Net.IPNet(), op.Metric); err != nil {
			return 1
		}
		return 0
	case OpRmDyn:
		if err := m.RemoveDynamicRoute(op.Net.IPNet()); err != nil {
			if strings.Contains(err.Error(), "config route") {
				return 1
			}
			return 2
		}
		return 0
	case OpTAdd:
		return b2u(m.Table().AddRoute(&routing.Route{Network: op.Net.IPNet(), NextHop: AgentID(op.Peer), OriginAgent: AgentID(op.Origin),
			Metric: op.Metric, Path: pathIDs(op.Path), Sequence: op.Seq}))
	case OpTRm:
		return b2u(m.Table().RemoveRoute(op.Net.IPNet(), AgentID(op.Origin)))

	case OpDAdv:
		ents := make([]routing.DomainRouteEntry, len(op.Ents))
		for i, e := range op.Ents {
			ents[i] = routing.DomainRouteEntry{Pattern: e.Name, IsWildcard: strings.HasPrefix(e.Name, "*."), Metric: e.Metric}
		}
		acc := m.ProcessDomainRouteAdvertise(AgentID(op.Peer), AgentID(op.Origin), op.Seq, ents, pathIDs(op.Path), nil)
		return uint64(len(acc))
	case OpDDisc:
		return uint64(m.HandlePeerDisconnectDomain(AgentID(op.Peer)))
	case OpDClean:
		return uint64(m.CleanupStaleDomainRoutes(time.Duration(op.Ms) * time.Millisecond))
	case OpDAddLocal:
		return b2u(m.AddLocalDomainRoute(op.Name, op.Metric))
	case OpDRmLocal:
		return b2u(m.RemoveLocalDomainRoute(op.Name))
	case OpDTRm:
		return b2u(m.DomainTable().RemoveRoute(op.Name, AgentID(op.Origin)))

	case OpFAdv:
		ents := make([]routing.ForwardRouteEntry, len(op.Ents))
		for i, e := range op.Ents {
			ents[i] = routing.ForwardRouteEntry{Key: e.Name, Target: e.Target, Metric: e.Metric}
		}
		acc := m.ProcessForwardRouteAdvertise(AgentID(op.Peer), AgentID(op.Origin), op.Seq, ents, pathIDs(op.Path), nil)
		return uint64(len(acc))
	case OpFDisc:
		return uint64(m.HandlePeerDisconnectForward(AgentID(op.Peer)))
	case OpFClean:
		return uint64(m.CleanupStaleForwardRoutes(time.Duration(op.Ms) * time.Millisecond))
	case OpFAddLocal:
		return b2u(m.AddLocalForwardRoute(op.Name, op.Target, op.Metric))
	case OpFRmLocal:
		return b2u(m.RemoveLocalForwardRoute(op.Name))
	case OpFTRm:
		return b2u(m.ForwardTable().RemoveRoute(op.Name, AgentID(op.Origin)))

	case OpAAdv:
		return b2u(m.ProcessAgentRouteAdvertise(AgentID(op.Peer), AgentID(op.Origin), op.Seq, AgentID(op.Agent), pathIDs(op.Path), nil, op.Metric))
	case OpADisc:
		return uint64(m.HandlePeerDisconnectAgent(AgentID(op.Peer)))
	case OpAClean:
		return uint64(m.CleanupStaleAgentRoutes(time.Duration(op.Ms) * time.Millisecond))
	case OpATRm:
		return b2u(m.AgentTable().RemoveRoute(AgentID(op.Agent), AgentID(op.Origin)))

	case OpLookup:
		r.Last = nil
		x := m.Lookup(lookupIP(op))
		if x != nil {
			e := r.cidrEntry(x)
			r.Last = &e
		}
		return foundCode(r.Last)
	case OpDLookup:
		r.Last = nil
		x := m.LookupDomain(op.Name)
		if x != nil {
			e := r.domainEntry(x)
			r.Last = &e
		}
		return foundCode(r.Last)
	case OpFLookup:
		r.Last = nil
		x := m.LookupForward(op.Name)
		if x != nil {
			e := r.forwardEntry(x)
			r.Last = &e
		}
		return foundCode(r.Last)
	case OpALookup:
		r.Last = nil
		x := m.LookupAgent(AgentID(op.Agent))
		if x != nil {
			e := r.agentEntry(x)
			r.Last = &e
		}
		return foundCode(r.Last)
	}
	panic(fmt.Sprintf("unknown op %d", op.Code))
}

func IsLookup(code int) bool { return code >= 50 }

// ---------------------------------------------------------------------------
// Projected dump.

// Entry is the projection of one stored route (of any of the four tables).
type Entry struct {
	Table   string     `json:"t"`   // "cidr" | "dexact" | "dwild" | "fwd" | "agent"
	Key     string     `json:"key"` // printable grouping key (as observed on the stored route)
	KeyNums []uint64   `json:"-"`   // numeric form of the key fed to the digest
	Origin  uint64     `json:"o"`
	NextHop uint64     `json:"nh"`
	Metric  uint64     `json:"m"`
	Seq     uint64     `json:"s"`
	LastMs  uint64     `json:"last"`
	Path    []uint64   `json:"path"`
	Payload []uint64   `json:"-"` // table specific stored data (pattern / target), digest only
	Net     *net.IPNet `json:"-"`
	Pattern string     `json:"pat,omitempty"`
	Wild    bool       `json:"wild,omitempty"`
	Base    string     `json:"base,omitempty"`
}

type Dump struct {
	Buckets map[string][][]Entry // table -> buckets (order of appearance); each bucket in stored order
	Seq     uint64
	NLocal  [4]uint64 // sizes of localRoutes, dynamicRoutes, localDomains, localForwards
}

// packs packs small numbers (w bits each) little-endian into 63-bit words.
func packs(w uint, xs []uint64) []uint64 {
	per := int(63 / w)
	var out []uint64
	for i := 0; i < len(xs); i += per {
		var v uint64
		end := i + per
		if end > len(xs) {
			end = len(xs)
		}
		for j := end - 1; j >= i; j-- {
			v = v<<w | (xs[j] & (1<<w - 1))
		}
		out = append(out, v)
	}
	return out
}

func strNums(s string) []uint64 {
	xs := make([]uint64, len(s))
	for i := 0; i < len(s); i++ {
		xs[i] = uint64(s[i])
	}
	return append([]uint64{uint64(len(s))}, packs(8, xs)...)
}

func pathNums(p []identity.AgentID) []uint64 {
	out := make([]uint64, len(p))
	for i, id := range p {
		out[i] = idxOf(id)
	}
	return out
}

// netNums projects a stored network: family by byte length, the mask as
// reported by Mask.Size(), and the address in two 64-bit halves.
func netNums(n *net.IPNet) []uint64 {
	if n == nil {
		return []uint64{9, 0, 0}
	}
	fam := uint64(6)
	if len(n.IP) == 4 {
		fam = 4
	}
	v := new(big.Int).SetBytes(n.IP)
	lo := new(big.Int).And(v, new(big.Int).SetUint64(^uint64(0))).Uint64()
	hi := new(big.Int).Rsh(v, 64).Uint64()
	ones, bits := n.Mask.Size()
	return []uint64{fam + 8*uint64(ones) + 4096*uint64(bits), hi, lo}
}

func asciiLower(s string) string {
	b := []byte(s)
	for i, c := range b {
		if c >= 'A' && c <= 'Z' {
			b[i] = c + 32
		}
	}
	return string(b)
}

func (r *Runner) ms(t time.Time) uint64 { return uint64(t.Sub(r.Start).Milliseconds()) }

func group(es []Entry) [][]Entry {
	idx := map[string]int{}
	var out [][]Entry
	for _, e := range es {
		i, ok := idx[e.Key]
		if !ok {
			i = len(out)
			idx[e.Key] = i
			out = append(out, nil)
		}
		out[i] = append(out[i], e)
	}
	return out
}

func (r *Runner) cidrEntry(x *routing.Route) Entry {
	kn := netNums(x.Network)
	return Entry{Table: "cidr", Key: fmt.Sprint(kn), KeyNums: kn, Origin: idxOf(x.OriginAgent), NextHop: idxOf(x.NextHop),
		Metric: uint64(x.Metric), Seq: x.Sequence, LastMs: r.ms(x.LastUpdate), Path: pathNums(x.Path), Net: x.Network}
}

func (r *Runner) domainEntry(x *routing.DomainRoute) Entry {
	t, k := "dexact", asciiLower(x.Pattern)
	if x.IsWildcard {
		t, k = "dwild", asciiLower(x.BaseDomain)
	}
	return Entry{Table: t, Key: k, KeyNums: strNums(k), Origin: idxOf(x.OriginAgent), NextHop: idxOf(x.NextHop),
		Metric: uint64(x.Metric), Seq: x.Sequence, LastMs: r.ms(x.LastUpdate), Path: pathNums(x.Path),
		Payload: strNums(x.Pattern), Pattern: x.Pattern, Wild: x.IsWildcard, Base: x.BaseDomain}
}

func (r *Runner) forwardEntry(x *routing.ForwardRoute) Entry {
	return Entry{Table: "fwd", Key: x.Key, KeyNums: strNums(x.Key), Origin: idxOf(x.OriginAgent), NextHop: idxOf(x.NextHop),
		Metric: uint64(x.Metric), Seq: x.Sequence, LastMs: r.ms(x.LastUpdate), Path: pathNums(x.Path), Payload: strNums(x.Target), Pattern: x.Target}
}

func (r *Runner) agentEntry(x *routing.AgentRoute) Entry {
	return Entry{Table: "agent", Key: fmt.Sprint(idxOf(x.AgentID)), KeyNums: []uint64{idxOf(x.AgentID)}, Origin: idxOf(x.OriginAgent), NextHop: idxOf(x.NextHop),
		Metric: uint64(x.Metric), Seq: x.Sequence, LastMs: r.ms(x.LastUpdate), Path: pathNums(x.Path)}
}

// Dump projects the whole implementation state.
func (r *Runner) Dump() *Dump {
	d := &Dump{Buckets: map[string][][]Entry{}}
	var c, de, dw, f, a []Entry
	for _, x := range r.M.Table().GetAllRoutes() {
		c = append(c, r.cidrEntry(x))
	}
	for _, x := range r.M.DomainTable().GetAllRoutes() {
		e := r.domainEntry(x)
		if e.Table == "dexact" {
			de = append(de, e)
		} else {
			dw = append(dw, e)
		}
	}
	for _, x := range r.M.ForwardTable().GetAllRoutes() {
		f = append(f, r.forwardEntry(x))
	}
	for _, x := range r.M.AgentTable().GetAllRoutes() {
		a = append(a, r.agentEntry(x))
	}
	d.Buckets["cidr"] = group(c)
	d.Buckets["dexact"] = group(de)
	d.Buckets["dwild"] = group(dw)
	d.Buckets["fwd"] = group(f)
	d.Buckets["agent"] = group(a)
	d.Seq = r.M.GetCurrentSequence()
	d.NLocal = [4]uint64{uint64(len(r.M.GetLocalRoutes())), uint64(len(r.M.GetDynamicRoutes())),
		uint64(len(r.M.GetLocalDomainRoutes())), uint64(len(r.M.GetLocalForwardRoutes()))}
	return d
}

// All returns every entry of a table, flat.
func (d *Dump) All(table string) []Entry {
	var out []Entry
	for _, b := range d.Buckets[table] {
		out = append(out, b...)
	}
	return out
}

var TableNames = []string{"cidr", "dexact", "dwild", "fwd", "agent"}

// Flat returns a printable, sorted form of the dump (for replay files).
func (d *Dump) Flat() []string {
	var out []string
	for _, t := range TableNames {
		for _, b := range d.Buckets[t] {
			for i, e := range b {
				out = append(out, fmt.Sprintf("%s|%s|#%d|o=%d nh=%d m=%d s=%d last=%d path=%v %s", t, e.Key, i, e.Origin, e.NextHop, e.Metric, e.Seq, e.LastMs, e.Path, e.Pattern))
			}
		}
	}
	sort.Strings(out)
	return out
}

// ---------------------------------------------------------------------------
// Digest (recomputed by the Coq model: Model/RouteTable.v, section "digest").

const mulK = 1000003

func mix(h, x uint64) uint64 { return h*mulK + x }

func mixAll(h uint64, xs []uint64) uint64 {
	for _, x := range xs {
		h = mix(h, x)
	}
	return h
}

func fin(h uint64) uint64 {
	h ^= h >> 29
	h *= mulK
	h ^= h >> 32
	return h
}

func entryNums(e Entry) []uint64 {
	out := []uint64{e.Origin + 128*e.NextHop + 16384*e.Metric + (e.LastMs&0xffffffff)<<30, e.Seq, uint64(len(e.Path))}
	out = append(out, packs(7, e.Path)...)
	out = append(out, e.Payload...)
	return out
}

func bucketHash(tag uint64, b []Entry) uint64 {
	h := mix(17, tag)
	h = mixAll(h, b[0].KeyNums)
	h = mix(h, uint64(len(b)))
	for _, e := range b {
		h = mixAll(h, entryNums(e))
	}
	return fin(h)
}

// Hash is the digest of the whole state: order-insensitive across buckets
// (sum), order-sensitive inside a bucket.
func (d *Dump) Hash() uint64 {
	var sum uint64
	for ti, t := range TableNames {
		for _, b := range d.Buckets[t] {
			sum += bucketHash(uint64(ti+1), b)
		}
	}
	h := mix(7, sum)
	h = mix(h, d.Seq)
	for _, n := range d.NLocal {
		h = mix(h, n)
	}
	return fin(h)
}

func byteSum(s string) uint64 {
	var n uint64
	for i := 0; i < len(s); i++ {
		n += uint64(s[i])
	}
	return n
}

// foundCode is the (cheap) digest of a lookup result; 0 = no route.
func foundCode(e *Entry) uint64 {
	if e == nil {
		return 0
	}
	c := e.Origin + 128*e.NextHop + 16384*e.Metric + (e.Seq&0xffff)<<30 + (e.LastMs&0xffff)<<46
	var tag, k uint64
	switch e.Table {
	case "cidr":
		tag = 1
		k = e.KeyNums[0] + (e.KeyNums[2]&0xffffffff)<<20
	case "dexact":
		tag = 2
		k = 2*uint64(len(e.Pattern)) + 1024*byteSum(e.Pattern)
	case "dwild":
		tag = 2
		k = 1 + 2*uint64(len(e.Pattern)) + 1024*byteSum(e.Pattern)
	case "fwd":
		tag = 4
		k = uint64(len(e.Key)) + 1024*byteSum(e.Key) + byteSum(e.Pattern)<<30
	case "agent":
		tag = 5
		k = e.KeyNums[0]
	}
	return mix(mix(tag, c), k) | 1
}

// ObsOf combines the digest of the lookups since the previous observation,
// the result of the operation and the state digest into one 32-bit value.
func ObsOf(ld, ret, sh uint64) uint64 {
	return fin(mix(mix(mix(11, ld), ret), sh)) & 0xffffffff
}

// ---------------------------------------------------------------------------
// Encoding of operations for cases.v: one list of N per op; networks,
// strings and large numbers are pool indices.

func encPath(p []int) []string {
	out := []string{fmt.Sprint(len(p))}
	for _, x := range p {
		out = append(out, fmt.Sprint(x))
	}
	return out
}

// Encode renders one op as the numbers decode_op expects, extending the
// pools as needed.
func (p *Pools) Encode(op Op) []string {
	u := func(v any) string { return fmt.Sprint(v) }
	out := []string{u(op.Code)}
	add := func(xs ...string) { out = append(out, xs...) }
	net := func(n *Net) string { return u(p.netIdx(n)) }
	str := func(s string) string { return u(p.strIdx(s)) }
	seq := func(v uint64) string { return u(p.numIdx(u(v))) }
	switch op.Code {
	case OpAdv:
		add(u(op.Peer), u(op.Origin), seq(op.Seq))
		add(encPath(op.Path)...)
		add(u(len(op.Ents)))
		for _, e := range op.Ents {
			add(net(e.Net), u(e.Metric))
		}
	case OpWd:
		add(u(op.Origin), u(len(op.Ents)))
		for _, e := range op.Ents {
			add(net(e.Net))
		}
	case OpDisc, OpDDisc, OpFDisc, OpADisc:
		add(u(op.Peer))
	case OpClean, OpDClean, OpFClean, OpAClean, OpTick:
		add(u(op.Ms))
	case OpAddLocal, OpAddDyn:
		add(net(op.Net), u(op.Metric))
	case OpRmLocal, OpRmDyn:
		add(net(op.Net))
	case OpTAdd:
		add(u(op.Peer), u(op.Origin), seq(op.Seq), u(op.Metric))
		add(encPath(op.Path)...)
		add(net(op.Net))
	case OpTRm:
		add(u(op.Origin), net(op.Net))
	case OpDAdv:
		add(u(op.Peer), u(op.Origin), seq(op.Seq))
		add(encPath(op.Path)...)
		add(u(len(op.Ents)))
		for _, e := range op.Ents {
			add(u(e.Metric), str(e.Name))
		}
	case OpDAddLocal:
		add(u(op.Metric), str(op.Name))
	case OpDRmLocal, OpFRmLocal:
		add(str(op.Name))
	case OpDTRm, OpFTRm:
		add(u(op.Origin), str(op.Name))
	case OpFAdv:
		add(u(op.Peer), u(op.Origin), seq(op.Seq))
		add(encPath(op.Path)...)
		add(u(len(op.Ents)))
		for _, e := range op.Ents {
			add(u(e.Metric), str(e.Name), str(e.Target))
		}
	case OpFAddLocal:
		add(u(op.Metric), str(op.Name), str(op.Target))
	case OpAAdv:
		add(u(op.Peer), u(op.Origin), seq(op.Seq), u(op.Agent), u(op.Metric))
		add(encPath(op.Path)...)
	case OpATRm:
		add(u(op.Agent), u(op.Origin))
	case OpLookup:
		add(u(op.Is16), u(p.numIdx(op.Addr)))
	case OpDLookup, OpFLookup:
		add(str(op.Name))
	case OpALookup:
		add(u(op.Agent))
	case OpLookupAll, OpDLookupAll, OpFLookupAll, OpALookupAll:
	case OpLookupB, OpDLookupD:
		add(u(op.Idx), u(op.K))
	default:
		panic("encode: unknown op")
	}
	return out
}
