package routingh

import (
	"math/big"
	"net"
	"sort"
	"strings"

	"github.com/postalsys/muti-metroo/verifharness/vh"
)

// Gen produces operations online (it may look at the current dump to aim at
// boundaries, e.g. a cleanup whose maxAge equals the age of a stored route).
type Gen struct {
	R       *vh.Rand
	Profile string // "cidr" | "keyed" | "all"
	Pools          // Nets and Strs are fixed when the generator is made
	Names   []string
	Pats    []string
	Keys    []string
	Targets []string
	added   map[int][]string // local patterns / keys added so far (aimed removals)
}

// canonical nesting / overlapping prefixes
var basePrefixes = []string{
	"0.0.0.0/0", "10.0.0.0/8", "10.0.0.0/9", "10.128.0.0/9", "10.1.0.0/16", "10.1.2.0/24", "10.1.2.0/25", "10.1.2.128/25",
	"10.1.2.3/32", "10.1.2.2/31", "192.168.0.0/16", "192.168.1.0/24", "255.255.255.255/32",
	"::/0", "2001:db8::/32", "2001:db8::/48", "2001:db8:0:1::/64", "2001:db8::1/128", "fe80::/10", "::1/128", "::/1", "8000::/1",
}

// prefixes that the wire decoder can deliver but that are not canonical
var oddPrefixes = []string{
	"10.1.2.3/8", "10.1.2.3/24", "10.200.0.1/9", "192.168.1.77/16", "2001:db8::5/32", "2001:db8:0:1::9/48",
	"6:::ffff:10.0.0.0/104", "6:::ffff:10.1.0.0/112", "6:::ffff:0.0.0.0/96", "6:::ffff:10.1.2.3/128", "6:::ffff:10.1.2.9/120",
	"6:::ffff:10.0.0.0/90", "10.0.0.0/33", "10.0.0.0/200", "2001:db8::/129", "6:::ffff:10.0.0.0/130",
}

var labels = []string{"a", "B", "api", "Www", "x-1"}
var slds = []string{"example", "Example", "test"}
var tlds = []string{"com", "ORG"}

// StrMaterial is the string material (domain patterns, forward keys and
// targets) of a generator. Sharing one StrMaterial between the histories of a
// run lets cases.v state the string pool once.
type StrMaterial struct {
	Names, Pats, Keys, Targets []string
}

func NewStrMaterial(r *vh.Rand) *StrMaterial {
	g := &StrMaterial{}
	perm := func(n int) []int {
		p := make([]int, n)
		for i := range p {
			p[i] = i
		}
		for i := n - 1; i > 0; i-- {
			j := r.Intn(i + 1)
			p[i], p[j] = p[j], p[i]
		}
		return p
	}
	for i := 0; i < 6; i++ {
		nm := slds[r.Intn(len(slds))] + "." + tlds[r.Intn(len(tlds))]
		for k := r.Intn(3); k > 0; k-- {
			nm = labels[r.Intn(len(labels))] + "." + nm
		}
		g.Names = append(g.Names, nm)
	}
	for _, nm := range g.Names {
		g.Pats = append(g.Pats, nm)
		// a wildcard exactly one label above an exact name: exact must win, in any letter case
		if _, parent, ok := strings.Cut(nm, "."); ok && strings.Contains(parent, ".") && r.Chance(1, 2) {
			g.Pats = append(g.Pats, "*."+parent)
		}
		if r.Chance(2, 3) {
			g.Pats = append(g.Pats, "*."+nm)
		}
		if r.Chance(1, 3) {
			g.Pats = append(g.Pats, "*."+flipCase(r, nm))
		}
		if r.Chance(1, 3) {
			g.Pats = append(g.Pats, flipCase(r, nm))
		}
	}
	odd := []string{" example.com", "*.example.com ", " *.test.com", "*.", "*.*.example.com", "a..com", ".com", "com", "*.com", "example.com.", "\t*.Example.ORG", "*", "*.a", "", "*.ex ample.com"}
	for _, i := range perm(len(odd))[:4] {
		g.Pats = append(g.Pats, odd[i])
	}
	g.Keys = []string{"k1", "K1", "web", "k2"}
	if r.Chance(1, 2) {
		g.Keys = append(g.Keys, "")
	}
	g.Targets = []string{"h:1", "10.0.0.1:80", ""}
	return g
}

// NewGen makes a generator; sm may be nil (fresh string material).
func NewGen(r *vh.Rand, profile string, sm *StrMaterial) *Gen {
	g := &Gen{R: r, Profile: profile}
	// prefix pool: up to 12 per history, mostly canonical
	perm := func(n int) []int {
		p := make([]int, n)
		for i := range p {
			p[i] = i
		}
		for i := n - 1; i > 0; i-- {
			j := r.Intn(i + 1)
			p[i], p[j] = p[j], p[i]
		}
		return p
	}
	nb := 5 + r.Intn(6)
	for _, i := range perm(len(basePrefixes))[:nb] {
		g.Nets = append(g.Nets, MustNet(basePrefixes[i]))
	}
	no := r.Intn(4)
	for _, i := range perm(len(oddPrefixes))[:no] {
		g.Nets = append(g.Nets, MustNet(oddPrefixes[i]))
	}
	if sm == nil {
		sm = NewStrMaterial(r)
	}
	g.Names, g.Pats, g.Keys, g.Targets = sm.Names, sm.Pats, sm.Keys, sm.Targets
	if profile != "cidr" {
		for _, s := range g.Pats {
			g.strIdx(s)
		}
		for _, s := range g.Keys {
			g.strIdx(s)
		}
		for _, s := range g.Targets {
			g.strIdx(s)
		}
	}
	return g
}

func flipCase(r *vh.Rand, s string) string {
	b := []byte(s)
	for i, c := range b {
		if r.Chance(1, 3) {
			switch {
			case c >= 'a' && c <= 'z':
				b[i] = c - 32
			case c >= 'A' && c <= 'Z':
				b[i] = c + 32
			}
		}
	}
	return string(b)
}

func (g *Gen) net() *Net { return g.Nets[g.R.Intn(len(g.Nets))] }
func (g *Gen) origin() int {
	if g.R.Chance(1, 12) {
		return 0 // a remote advertisement claiming the local agent as origin
	}
	return 1 + g.R.Intn(4)
}
func (g *Gen) peer() int      { return 1 + g.R.Intn(3) }
func (g *Gen) metric() uint16 { return uint16(g.R.PickU64(0, 1, 1, 2, 2, 5, 9, 65534, 65535)) }
func (g *Gen) seq() uint64 {
	return g.R.PickU64(0, 1, 1, 2, 2, 3, 3, 4, 1<<63-1, 1<<63, ^uint64(0)-1, ^uint64(0))
}
func (g *Gen) path(peer int) []int {
	switch g.R.Intn(8) {
	case 0:
		return nil
	case 1: // contains the local agent: must be rejected
		p := []int{peer, 1 + g.R.Intn(6)}
		p = append(p, 0)
		if g.R.Chance(1, 2) {
			p = append(p, 1+g.R.Intn(6))
		}
		return p
	case 2:
		return []int{0}
	case 3, 4: // the head of the path is NOT the delivering peer (legacy encrypted
		// path forwarded unchanged, or a neighbour that relays without prepending itself)
		other := 1 + g.R.Intn(7)
		if other == peer {
			other = 1 + peer%7
		}
		p := []int{other}
		if g.R.Chance(1, 2) {
			p = append(p, peer)
		}
		if g.R.Chance(1, 2) {
			p = append(p, 1+g.R.Intn(7))
		}
		return p
	default:
		p := []int{peer}
		for k := g.R.Intn(3); k > 0; k-- {
			p = append(p, 1+g.R.Intn(7))
		}
		return p
	}
}

// ageMs picks a cleanup maxAge, aimed at the age of a stored entry when possible.
func (g *Gen) ageMs(d *Dump, tables []string, nowMs int64) int64 {
	var es []Entry
	for _, t := range tables {
		es = append(es, d.All(t)...)
	}
	// the dump lists buckets in Go map order: sort, so that the choice depends on the seed only
	sort.Slice(es, func(i, j int) bool {
		a, b := es[i], es[j]
		if a.Table != b.Table {
			return a.Table < b.Table
		}
		if a.Key != b.Key {
			return a.Key < b.Key
		}
		if a.Origin != b.Origin {
			return a.Origin < b.Origin
		}
		return a.NextHop < b.NextHop
	})
	if len(es) > 0 && g.R.Chance(3, 4) {
		e := es[g.R.Intn(len(es))]
		age := nowMs - int64(e.LastMs)
		v := age + int64(g.R.Pick(-1, 0, 0, 1))
		if v < 0 {
			v = 0
		}
		return v
	}
	return int64(g.R.Pick(0, 1, 999, 1000, 1001, 5000, 60000, 300000))
}

func (g *Gen) tick() Op {
	return Op{Code: OpTick, Ms: int64(g.R.Pick(1, 1, 499, 500, 1000, 1000, 5000, 60000))}
}

func (g *Gen) noteAdded(code int, name string) {
	if g.added == nil {
		g.added = map[int][]string{}
	}
	g.added[code] = append(g.added[code], name)
}

// victim picks a stored route that is not the last of a bucket of at least
// three (most often the head): removing it is where an order-destroying
// removal shows. Buckets are taken in sorted key order, so the choice depends
// on the seed only.
func (g *Gen) victim(d *Dump, table string) (Entry, bool) {
	var bs [][]Entry
	for _, b := range d.Buckets[table] {
		if len(b) >= 3 {
			bs = append(bs, b)
		}
	}
	if len(bs) == 0 {
		return Entry{}, false
	}
	sort.Slice(bs, func(i, j int) bool { return bs[i][0].Key < bs[j][0].Key })
	b := bs[g.R.Intn(len(bs))]
	if g.R.Chance(2, 3) {
		return b[0], true
	}
	return b[g.R.Intn(len(b)-1)], true
}

// poolNet finds the pool network that is stored as n.
func (g *Gen) poolNet(n *net.IPNet) *Net {
	for _, x := range g.Nets {
		if _, c, err := net.ParseCIDR(x.IPNet().String()); err == nil && n != nil && c.String() == n.String() {
			return x
		}
	}
	return nil
}

// Next returns the next mutating (or tick) operation.
func (g *Gen) Next(d *Dump, nowMs int64) Op {
	r := g.R
	fam := g.Profile
	if fam == "all" {
		fam = []string{"cidr", "domain", "fwd", "agent"}[r.Intn(4)]
	} else if fam == "keyed" {
		fam = []string{"domain", "domain", "fwd", "agent"}[r.Intn(4)]
	}
	if r.Chance(1, 9) {
		return g.tick()
	}
	switch fam {
	case "cidr":
		switch x := r.Intn(100); {
		case x < 48:
			peer := g.peer()
			n := r.Pick(1, 1, 1, 2, 3)
			op := Op{Code: OpAdv, Peer: peer, Origin: g.origin(), Seq: g.seq(), Path: g.path(peer)}
			for i := 0; i < n; i++ {
				op.Ents = append(op.Ents, Ent{Net: g.net(), Metric: g.metric()})
			}
			return op
		case x < 56:
			if e, ok := g.victim(d, "cidr"); ok && r.Chance(1, 2) {
				if n := g.poolNet(e.Net); n != nil {
					return Op{Code: OpWd, Origin: int(e.Origin), Ents: []Ent{{Net: n}}}
				}
			}
			op := Op{Code: OpWd, Origin: g.origin()}
			for i := r.Pick(1, 1, 2); i > 0; i-- {
				op.Ents = append(op.Ents, Ent{Net: g.net()})
			}
			return op
		case x < 62:
			return Op{Code: OpDisc, Peer: r.Pick(0, 1, 2, 3, 4)}
		case x < 70:
			return Op{Code: OpClean, Ms: g.ageMs(d, []string{"cidr"}, nowMs)}
		case x < 76:
			return Op{Code: OpAddLocal, Net: g.net(), Metric: g.metric()}
		case x < 80:
			return Op{Code: OpRmLocal, Net: g.net()}
		case x < 84:
			return Op{Code: OpAddDyn, Net: g.net(), Metric: g.metric()}
		case x < 88:
			return Op{Code: OpRmDyn, Net: g.net()}
		case x < 96:
			peer := r.Pick(0, 1, 2, 3)
			return Op{Code: OpTAdd, Peer: peer, Origin: r.Intn(5), Seq: g.seq(), Metric: g.metric(), Path: g.path(peer), Net: g.net()}
		default:
			if e, ok := g.victim(d, "cidr"); ok && r.Chance(1, 2) {
				if n := g.poolNet(e.Net); n != nil {
					return Op{Code: OpTRm, Origin: int(e.Origin), Net: n}
				}
			}
			return Op{Code: OpTRm, Origin: r.Intn(5), Net: g.net()}
		}
	case "domain":
		pat := func() string { return g.Pats[r.Intn(len(g.Pats))] }
		switch x := r.Intn(100); {
		case x < 50:
			peer := g.peer()
			op := Op{Code: OpDAdv, Peer: peer, Origin: g.origin(), Seq: g.seq(), Path: g.path(peer)}
			for i := r.Pick(1, 1, 2, 3); i > 0; i-- {
				op.Ents = append(op.Ents, Ent{Name: pat(), Metric: g.metric()})
			}
			return op
		case x < 58:
			return Op{Code: OpDDisc, Peer: r.Pick(0, 1, 2, 3, 4)}
		case x < 68:
			return Op{Code: OpDClean, Ms: g.ageMs(d, []string{"dexact", "dwild"}, nowMs)}
		case x < 80:
			op := Op{Code: OpDAddLocal, Name: pat(), Metric: g.metric()}
			g.noteAdded(OpDRmLocal, op.Name)
			return op
		case x < 88:
			if a := g.added[OpDRmLocal]; len(a) > 0 && r.Chance(2, 3) {
				return Op{Code: OpDRmLocal, Name: a[r.Intn(len(a))]}
			}
			return Op{Code: OpDRmLocal, Name: pat()}
		default:
			if e, ok := g.victim(d, []string{"dexact", "dwild"}[r.Intn(2)]); ok && r.Chance(1, 2) {
				return Op{Code: OpDTRm, Origin: int(e.Origin), Name: e.Pattern}
			}
			return Op{Code: OpDTRm, Origin: r.Intn(5), Name: pat()}
		}
	case "fwd":
		key := func() string { return g.Keys[r.Intn(len(g.Keys))] }
		tgt := func() string { return g.Targets[r.Pick(0, 0, 1, 1, 2)] }
		switch x := r.Intn(100); {
		case x < 50:
			peer := g.peer()
			op := Op{Code: OpFAdv, Peer: peer, Origin: g.origin(), Seq: g.seq(), Path: g.path(peer)}
			for i := r.Pick(1, 1, 2); i > 0; i-- {
				op.Ents = append(op.Ents, Ent{Name: key(), Target: tgt(), Metric: g.metric()})
			}
			return op
		case x < 58:
			return Op{Code: OpFDisc, Peer: r.Pick(0, 1, 2, 3, 4)}
		case x < 68:
			return Op{Code: OpFClean, Ms: g.ageMs(d, []string{"fwd"}, nowMs)}
		case x < 80:
			op := Op{Code: OpFAddLocal, Name: key(), Target: tgt(), Metric: g.metric()}
			g.noteAdded(OpFRmLocal, op.Name)
			return op
		case x < 88:
			if a := g.added[OpFRmLocal]; len(a) > 0 && r.Chance(2, 3) {
				return Op{Code: OpFRmLocal, Name: a[r.Intn(len(a))]}
			}
			return Op{Code: OpFRmLocal, Name: key()}
		default:
			if e, ok := g.victim(d, "fwd"); ok && r.Chance(1, 2) {
				return Op{Code: OpFTRm, Origin: int(e.Origin), Name: e.Key}
			}
			return Op{Code: OpFTRm, Origin: r.Intn(5), Name: key()}
		}
	default: // agent
		switch x := r.Intn(100); {
		case x < 62:
			peer := g.peer()
			// at most 4 origins x 3 next hops = 12 entries per agent: sort.Slice
			// is a (stable) insertion sort up to 12 elements, which is what the
			// model's isort is
			o := 1 + r.Intn(4)
			a := o
			if r.Chance(1, 4) {
				a = 1 + r.Intn(5)
			}
			return Op{Code: OpAAdv, Peer: peer, Origin: o, Agent: a, Seq: g.seq(), Metric: g.metric(), Path: g.path(peer)}
		case x < 72:
			return Op{Code: OpADisc, Peer: r.Pick(0, 1, 2, 3, 4)}
		case x < 84:
			return Op{Code: OpAClean, Ms: g.ageMs(d, []string{"agent"}, nowMs)}
		default:
			if e, ok := g.victim(d, "agent"); ok && r.Chance(1, 2) {
				return Op{Code: OpATRm, Agent: int(e.KeyNums[0]), Origin: int(e.Origin)}
			}
			return Op{Code: OpATRm, Agent: 1 + r.Intn(5), Origin: r.Intn(5)}
		}
	}
}

// Lookups returns k lookup operations appropriate for the profile.
func (g *Gen) Lookups(k int) []Op {
	r := g.R
	var out []Op
	for i := 0; i < k; i++ {
		fam := g.Profile
		if fam == "all" {
			fam = []string{"cidr", "domain", "fwd", "agent"}[r.Intn(4)]
		} else if fam == "keyed" {
			fam = []string{"domain", "domain", "domain", "fwd", "agent"}[r.Intn(5)]
		}
		switch fam {
		case "cidr":
			if r.Chance(1, 40) {
				out = append(out, Op{Code: OpLookup, Is16: 2, Addr: "0"})
			} else {
				out = append(out, Op{Code: OpLookupB, Idx: r.Intn(len(g.Nets)), K: r.Intn(12)})
			}
		case "domain":
			out = append(out, Op{Code: OpDLookupD, Idx: r.Intn(len(g.Strs)), K: r.Intn(9)})
		case "fwd":
			out = append(out, Op{Code: OpFLookup, Name: g.Keys[r.Intn(len(g.Keys))]})
		default:
			out = append(out, Op{Code: OpALookup, Agent: r.Intn(7)})
		}
	}
	return out
}

// AllLookups returns the "look up everything" operations of the profile.
func (g *Gen) AllLookups() []Op {
	var out []Op
	if g.Profile == "cidr" || g.Profile == "all" {
		out = append(out, Op{Code: OpLookupAll})
	}
	if g.Profile == "keyed" || g.Profile == "all" {
		out = append(out, Op{Code: OpDLookupAll}, Op{Code: OpFLookupAll}, Op{Code: OpALookupAll})
	}
	return out
}

var _ = net.IPv4len
var _ = big.NewInt
var _ = strings.TrimSpace
