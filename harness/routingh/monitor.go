package routingh

import (
	"fmt"
	"net"
	"reflect"
	"sort"
	"strings"
)

// Failure is one monitor finding (signature = stable narrow class).
type Failure struct {
	Sig    string
	Detail string
}

// ---------------------------------------------------------------------------
// C08: the lookup result against a brute-force longest-prefix match over the
// dump. Ground truth for "network contains address" is net.IPNet.Contains
// (standard library); the prefix length is measured in the common 128-bit
// address space on the canonical form of the network (net.ParseCIDR of its
// printed form): IPv4 /n counts as 96+n.

func effLen(n *net.IPNet) (int, bool) {
	if n == nil {
		return 0, false
	}
	_, c, err := net.ParseCIDR(n.String())
	if err != nil {
		return 0, false
	}
	ones, bits := c.Mask.Size()
	return ones + (128 - bits), true
}

// netClass classifies a stored network: "" canonical, "noncanonical-prefix"
// (host bits set), "v4mapped-prefix" (16-byte IPv4-mapped form), "invalid".
func netClass(n *net.IPNet) string {
	if n == nil {
		return "invalid"
	}
	_, c, err := net.ParseCIDR(n.String())
	if err != nil {
		return "invalid"
	}
	if len(n.IP) == 16 && n.IP.To4() != nil {
		return "v4mapped-prefix"
	}
	if len(c.IP) != len(n.IP) || !c.IP.Equal(n.IP) || c.Mask.String() != n.Mask.String() {
		return "noncanonical-prefix"
	}
	return ""
}

func sameEntry(a, b Entry) bool {
	return a.Table == b.Table && a.Key == b.Key && a.Origin == b.Origin && a.NextHop == b.NextHop && a.Metric == b.Metric &&
		a.Seq == b.Seq && a.LastMs == b.LastMs && reflect.DeepEqual(a.Path, b.Path) && a.Pattern == b.Pattern
}

func stored(d *Dump, tables []string, e Entry) bool {
	for _, t := range tables {
		for _, x := range d.All(t) {
			if sameEntry(x, e) {
				return true
			}
		}
	}
	return false
}

// CheckCIDRLookup evaluates C08 for one lookup on the state d.
func CheckCIDRLookup(d *Dump, ip net.IP, res *Entry) []Failure {
	var fails []Failure
	type cand struct {
		e   Entry
		len int
	}
	var cands []cand
	class := ""
	for _, e := range d.All("cidr") {
		if e.Net == nil || !e.Net.Contains(ip) {
			continue
		}
		l, ok := effLen(e.Net)
		if !ok {
			continue
		}
		cands = append(cands, cand{e, l})
		if c := netClass(e.Net); c != "" && class == "" {
			class = c
		}
	}
	sfx := ""
	if class != "" {
		sfx = "-" + class
	}
	if len(cands) == 0 {
		if res != nil {
			fails = append(fails, Failure{"lpm-phantom-result", fmt.Sprintf("lookup %v returned %s although no stored network contains the address", ip, res.Key)})
		}
		return fails
	}
	if res == nil {
		return []Failure{{"lpm-missed" + sfx, fmt.Sprintf("lookup %v returned nothing although %d stored route(s) contain the address", ip, len(cands))}}
	}
	if !stored(d, []string{"cidr"}, *res) {
		fails = append(fails, Failure{"lpm-result-not-stored", fmt.Sprintf("lookup %v returned a route that is not in the table: %+v", ip, *res)})
	}
	if res.Net == nil || !res.Net.Contains(ip) {
		return append(fails, Failure{"lpm-result-not-containing" + sfx, fmt.Sprintf("lookup %v returned %v which does not contain the address", ip, res.Net)})
	}
	best := -1
	for _, c := range cands {
		if c.len > best {
			best = c.len
		}
	}
	minMetric := uint64(1 << 62)
	for _, c := range cands {
		if c.len == best && c.e.Metric < minMetric {
			minMetric = c.e.Metric
		}
	}
	rl, _ := effLen(res.Net)
	if rl != best {
		return append(fails, Failure{"lpm-not-longest" + sfx, fmt.Sprintf("lookup %v returned %v (effective length %d) but a stored network of effective length %d contains the address", ip, res.Net, rl, best)})
	}
	if res.Metric != minMetric {
		fails = append(fails, Failure{"lpm-not-lowest-metric" + sfx, fmt.Sprintf("lookup %v returned metric %d via %v; lowest metric among the longest matching prefixes is %d", ip, res.Metric, res.Net, minMetric)})
	}
	return fails
}

// ---------------------------------------------------------------------------
// C09

// CheckDomainLookup evaluates the domain part of C09 for one lookup.
func CheckDomainLookup(d *Dump, name string, res *Entry) []Failure {
	ln := asciiLower(name)
	var exact, wild []Entry
	for _, e := range d.All("dexact") {
		if asciiLower(e.Pattern) == ln {
			exact = append(exact, e)
		}
	}
	label, base, hasDot := strings.Cut(ln, ".")
	for _, e := range d.All("dwild") {
		if hasDot && label != "" && base != "" && asciiLower(e.Base) == base {
			wild = append(wild, e)
		}
	}
	minM := func(es []Entry) uint64 {
		m := uint64(1 << 62)
		for _, e := range es {
			if e.Metric < m {
				m = e.Metric
			}
		}
		return m
	}
	var fails []Failure
	if res != nil && !stored(d, []string{"dexact", "dwild"}, *res) {
		fails = append(fails, Failure{"domain-result-not-stored", fmt.Sprintf("lookup %q returned a route that is not in the table: %+v", name, *res)})
	}
	if res != nil && res.Wild {
		// never deeper than one label, whatever else is stored
		rb := asciiLower(res.Base)
		if !(hasDot && label != "" && base == rb && rb != "") {
			return append(fails, Failure{"domain-wildcard-depth", fmt.Sprintf("lookup %q matched wildcard *.%s which is not exactly one label above", name, res.Base)})
		}
	}
	switch {
	case len(exact) > 0:
		if res == nil {
			return append(fails, Failure{"domain-exact-missed", fmt.Sprintf("lookup %q returned nothing although an exact pattern is stored", name)})
		}
		if res.Wild || asciiLower(res.Pattern) != ln {
			return append(fails, Failure{"domain-exact-not-preferred", fmt.Sprintf("lookup %q returned pattern %q although an exact pattern is stored", name, res.Pattern)})
		}
		if res.Metric != minM(exact) {
			fails = append(fails, Failure{"domain-not-lowest-metric", fmt.Sprintf("lookup %q returned metric %d, lowest exact is %d", name, res.Metric, minM(exact))})
		}
	case len(wild) > 0:
		if res == nil {
			return append(fails, Failure{"domain-wildcard-missed", fmt.Sprintf("lookup %q returned nothing although *.%s is stored", name, base)})
		}
		if !res.Wild {
			return append(fails, Failure{"domain-phantom-exact", fmt.Sprintf("lookup %q returned exact pattern %q that does not equal the name", name, res.Pattern)})
		}
		if res.Metric != minM(wild) {
			fails = append(fails, Failure{"domain-not-lowest-metric", fmt.Sprintf("lookup %q returned metric %d, lowest wildcard is %d", name, res.Metric, minM(wild))})
		}
	default:
		if res != nil {
			fails = append(fails, Failure{"domain-phantom-result", fmt.Sprintf("lookup %q returned %q although no stored pattern matches", name, res.Pattern)})
		}
	}
	return fails
}

// CheckKeyedLookup evaluates the forward-key / agent part of C09: table is
// "fwd" or "agent", key the printable bucket key.
func CheckKeyedLookup(d *Dump, table, key string, res *Entry) []Failure {
	var cands []Entry
	for _, e := range d.All(table) {
		if e.Key == key {
			cands = append(cands, e)
		}
	}
	if len(cands) == 0 {
		if res != nil {
			return []Failure{{table + "-phantom-result", fmt.Sprintf("lookup %q returned a route although none is stored for it", key)}}
		}
		return nil
	}
	if res == nil {
		return []Failure{{table + "-missed", fmt.Sprintf("lookup %q returned nothing although %d route(s) are stored", key, len(cands))}}
	}
	var fails []Failure
	if res.Key != key {
		return []Failure{{table + "-wrong-key", fmt.Sprintf("lookup %q returned a route for %q", key, res.Key)}}
	}
	if !stored(d, []string{table}, *res) {
		fails = append(fails, Failure{table + "-result-not-stored", fmt.Sprintf("lookup %q returned a route that is not in the table", key)})
	}
	m := uint64(1 << 62)
	for _, e := range cands {
		if e.Metric < m {
			m = e.Metric
		}
	}
	if res.Metric != m {
		fails = append(fails, Failure{table + "-not-lowest-metric", fmt.Sprintf("lookup %q returned metric %d, lowest stored is %d", key, res.Metric, m)})
	}
	return fails
}

// ---------------------------------------------------------------------------
// C10: the four maintenance rules on consecutive dumps.

func ident(e Entry) string {
	if e.Table == "agent" {
		return fmt.Sprintf("%s|%s|o%d|nh%d", e.Table, e.Key, e.Origin, e.NextHop)
	}
	return fmt.Sprintf("%s|%s|o%d", e.Table, e.Key, e.Origin)
}

func content(e Entry) string {
	return fmt.Sprintf("nh=%d m=%d s=%d last=%d path=%v pat=%q", e.NextHop, e.Metric, e.Seq, e.LastMs, e.Path, e.Pattern)
}

func index(d *Dump) map[string][]Entry {
	m := map[string][]Entry{}
	for _, t := range TableNames {
		for _, e := range d.All(t) {
			m[ident(e)] = append(m[ident(e)], e)
		}
	}
	return m
}

func multiset(es []Entry) []string {
	out := make([]string, len(es))
	for i, e := range es {
		out[i] = ident(e) + " " + content(e)
	}
	sort.Strings(out)
	return out
}

// tablesOf returns the dump tables an operation is allowed to change.
func tablesOf(code int) []string {
	switch {
	case code >= 1 && code <= 11 && code != OpTick:
		return []string{"cidr"}
	case code >= 20 && code < 30:
		return []string{"dexact", "dwild"}
	case code >= 30 && code < 40:
		return []string{"fwd"}
	case code >= 40 && code < 50:
		return []string{"agent"}
	}
	return nil
}

// Deliverer returns the peer an add-type operation delivers its routes
// through (the local agent for locally originated routes), or -1.
func Deliverer(op Op) int {
	switch op.Code {
	case OpAdv, OpDAdv, OpFAdv, OpAAdv, OpTAdd:
		return op.Peer
	case OpAddLocal, OpAddDyn, OpDAddLocal, OpFAddLocal:
		return 0
	}
	return -1
}

// UpdateProvenance records, for every route that the operation stored or
// replaced, the peer that delivered it; routes that are gone are forgotten.
// prov is the harness's own record of "learned through which peer"; it does
// not look at the NextHop the implementation stored.
func UpdateProvenance(prov map[string]int, before, after *Dump, op Op) {
	bi, ai := index(before), index(after)
	for id := range prov {
		if _, ok := ai[id]; !ok {
			delete(prov, id)
		}
	}
	d := Deliverer(op)
	for id, as := range ai {
		bs, had := bi[id]
		if !had || len(bs) != len(as) || content(bs[0]) != content(as[0]) {
			if d >= 0 {
				prov[id] = d
			}
		}
	}
}

// CheckMaintenance evaluates the C10 rules for one step before -op-> after.
// nowMs is the virtual time at which the operation ran; prov is the
// provenance record before the operation.
func CheckMaintenance(before, after *Dump, op Op, ret uint64, nowMs int64, prov map[string]int) []Failure {
	var fails []Failure
	bi, ai := index(before), index(after)

	// every bucket stays metric-sorted (lookups return its head)
	for _, t := range TableNames {
		for _, b := range after.Buckets[t] {
			for i := 1; i < len(b); i++ {
				if b[i-1].Metric > b[i].Metric {
					fails = append(fails, Failure{"bucket-not-metric-sorted", fmt.Sprintf("after op %d bucket %s|%s has metric %d before %d", op.Code, t, b[i].Key, b[i-1].Metric, b[i].Metric)})
					break
				}
			}
		}
	}
	// a withdrawal (Table.RemoveRoute) of a network, in whatever form it is
	// written (host bits set, ...), leaves no route of that origin for the
	// same canonical network behind: a stale entry would keep winning lookups
	// although the reference set no longer contains it
	var withdrawn []*Net
	if op.Code == OpTRm && op.Net != nil {
		withdrawn = append(withdrawn, op.Net)
	}
	if op.Code == OpWd {
		for _, en := range op.Ents {
			if en.Net != nil {
				withdrawn = append(withdrawn, en.Net)
			}
		}
	}
	for _, wn := range withdrawn {
		want := canonNetString(wn.IPNet())
		if want == "" {
			continue
		}
		for _, e := range after.All("cidr") {
			if e.Net != nil && e.Origin == uint64(op.Origin) && canonNetString(e.Net) == want {
				fails = append(fails, Failure{"withdrawn-route-still-stored", fmt.Sprintf("after the withdrawal of %v by origin %d the table still holds %s from that origin", wn.IPNet(), op.Origin, e.Key)})
				break
			}
		}
	}
	// a route stored or replaced by this operation is learned through the
	// delivering peer and is stamped with the current time
	if d := Deliverer(op); d >= 0 {
		for id, as := range ai {
			bs, had := bi[id]
			if had && len(bs) == len(as) && content(bs[0]) == content(as[0]) {
				continue
			}
			a := as[0]
			if op.Code != OpTAdd && a.NextHop != uint64(d) {
				fails = append(fails, Failure{"learned-route-wrong-nexthop", fmt.Sprintf("%s was delivered by peer %d (op %d, path %v) but is stored with next hop %d: a disconnect of peer %d will not remove it", id, d, op.Code, op.Path, a.NextHop, d)})
			}
			if int64(a.LastMs) != nowMs {
				fails = append(fails, Failure{"accepted-route-not-timestamped", fmt.Sprintf("%s was stored by op %d at %dms but carries LastUpdate %dms: cleanup will treat it as stale", id, op.Code, nowMs, int64(a.LastMs))})
			}
		}
	}

	// rule 2: no stored route's path contains the local agent
	for _, t := range TableNames {
		for _, e := range after.All(t) {
			for _, p := range e.Path {
				if p == 0 {
					fails = append(fails, Failure{"self-path-stored", fmt.Sprintf("stored route %s has the local agent in its path %v", ident(e), e.Path)})
				}
			}
		}
	}
	// one entry per origin per key (per origin and next hop in the agent table)
	for id, es := range ai {
		if len(es) > 1 {
			fails = append(fails, Failure{"duplicate-origin-entry", fmt.Sprintf("%d entries for %s", len(es), id)})
		}
	}
	// rule 1: replacement only by newer sequence, or same sequence and strictly lower metric
	for id, bs := range bi {
		as, ok := ai[id]
		if !ok || len(bs) != 1 || len(as) != 1 {
			continue
		}
		b, a := bs[0], as[0]
		if content(b) == content(a) {
			continue
		}
		if !(a.Seq > b.Seq || (a.Seq == b.Seq && a.Metric < b.Metric)) {
			fails = append(fails, Failure{"replaced-by-older-or-worse", fmt.Sprintf("%s changed from {%s} to {%s} by op %d", id, content(b), content(a), op.Code)})
		}
	}
	// frame: tables the operation does not address are unchanged
	touch := map[string]bool{}
	for _, t := range tablesOf(op.Code) {
		touch[t] = true
	}
	for _, t := range TableNames {
		if !touch[t] && !reflect.DeepEqual(multiset(before.All(t)), multiset(after.All(t))) {
			fails = append(fails, Failure{"unrelated-table-changed", fmt.Sprintf("op %d changed table %s", op.Code, t)})
		}
	}
	// rule 3: disconnect removes exactly the routes whose next hop is the peer
	if op.Code == OpDisc || op.Code == OpDDisc || op.Code == OpFDisc || op.Code == OpADisc {
		for _, t := range tablesOf(op.Code) {
			var want []Entry
			removed := 0
			for _, e := range before.All(t) {
				if e.NextHop != uint64(op.Peer) {
					want = append(want, e)
				} else {
					removed++
				}
			}
			if !reflect.DeepEqual(multiset(want), multiset(after.All(t))) {
				sig := "disconnect-not-exact"
				for _, e := range after.All(t) {
					if e.NextHop == uint64(op.Peer) {
						sig = "disconnect-left-route"
					}
				}
				fails = append(fails, Failure{sig, fmt.Sprintf("disconnect of peer %d on %s: expected %v, got %v", op.Peer, t, multiset(want), multiset(after.All(t)))})
			}
		}
		// by the harness's own provenance record: exactly the routes delivered by the peer go
		for _, t := range tablesOf(op.Code) {
			for _, e := range before.All(t) {
				from, known := prov[ident(e)]
				if !known {
					continue
				}
				_, still := ai[ident(e)]
				if from == op.Peer && still {
					fails = append(fails, Failure{"disconnect-left-route", fmt.Sprintf("%s was learned through peer %d and survived its disconnect (stored next hop %d)", ident(e), op.Peer, e.NextHop)})
				}
				if from != op.Peer && !still {
					fails = append(fails, Failure{"disconnect-removed-foreign-route", fmt.Sprintf("%s was learned through peer %d and was removed by the disconnect of peer %d", ident(e), from, op.Peer)})
				}
			}
		}
		nRemoved := 0
		for _, t := range tablesOf(op.Code) {
			for _, e := range before.All(t) {
				if e.NextHop == uint64(op.Peer) {
					nRemoved++
				}
			}
		}
		if uint64(nRemoved) != ret {
			fails = append(fails, Failure{"disconnect-count", fmt.Sprintf("disconnect of peer %d reported %d removed, %d entries had that next hop", op.Peer, ret, nRemoved)})
		}
	}
	// rule 4: cleanup never removes local-origin routes; removes exactly the stale non-local ones
	if op.Code == OpClean || op.Code == OpDClean || op.Code == OpFClean || op.Code == OpAClean {
		for _, t := range tablesOf(op.Code) {
			var want []Entry
			for _, e := range before.All(t) {
				if e.Origin == 0 {
					if _, ok := ai[ident(e)]; !ok {
						fails = append(fails, Failure{"cleanup-removed-local", fmt.Sprintf("cleanup(maxAge=%dms) at %dms removed locally originated %s", op.Ms, nowMs, ident(e))})
					}
					want = append(want, e)
					continue
				}
				if nowMs-int64(e.LastMs) <= op.Ms {
					want = append(want, e)
				}
			}
			if !reflect.DeepEqual(multiset(want), multiset(after.All(t))) {
				fails = append(fails, Failure{"cleanup-not-exact", fmt.Sprintf("cleanup(maxAge=%dms) at %dms on %s: expected %v, got %v", op.Ms, nowMs, t, multiset(want), multiset(after.All(t)))})
			}
		}
	}
	return fails
}

// canonNetString is the printed form of the masked network, re-parsed ("" when
// the network has no canonical printed form).
func canonNetString(n *net.IPNet) string {
	if n == nil || n.IP == nil || n.Mask == nil {
		return ""
	}
	ip := n.IP.Mask(n.Mask)
	if ip == nil {
		return ""
	}
	_, p, err := net.ParseCIDR((&net.IPNet{IP: ip, Mask: n.Mask}).String())
	if err != nil {
		return ""
	}
	return p.String()
}
