// Package tunnelmesh wires real agent.Agent instances together in one process
// through a harness-implemented transport.Transport (in-memory byte pipes, no
// sockets between agents). Every frame an agent writes to a peer passes
// through a tap that parses the wire bytes itself (header layout of
// protocol.Frame: type, flags, u32 length, u64 stream id) so that the size
// monitor does not depend on the repository's own constants.
//
// Used by the tunnel family harnesses (C04, C07).
package tunnelmesh

import (
	"context"
	"encoding/binary"
	"errors"
	"fmt"
	"io"
	"net"
	"os"
	"sync"
	"time"

	"github.com/postalsys/muti-metroo/internal/agent"
	"github.com/postalsys/muti-metroo/internal/config"
	"github.com/postalsys/muti-metroo/internal/transport"
)

// FrameEvent is one frame observed on a link, as written by agent From to
// agent To.
type FrameEvent struct {
	From, To int
	Type     uint8
	Flags    uint8
	StreamID uint64
	Length   uint32 // length field of the header
	Payload  []byte // copy of the payload bytes
	Injected bool   // written by the harness (Mesh.Inject), not by agent From
}

// Filter decides, for a frame written by an agent, whether the link drops it
// (true) instead of delivering it. Used to let the harness stand in for an
// endpoint behind a link.
type Filter func(FrameEvent) (drop bool)

// Tap receives every frame. It is called synchronously in the writer's
// goroutine before the bytes become readable at the other end.
type Tap func(FrameEvent)

// ---------------------------------------------------------------------------
// in-memory byte pipe (one direction), unbounded so that agents never block
// each other through the harness

type halfPipe struct {
	mu     sync.Mutex
	cond   *sync.Cond
	chunks [][]byte
	closed bool
}

func newHalfPipe() *halfPipe {
	h := &halfPipe{}
	h.cond = sync.NewCond(&h.mu)
	return h
}

func (h *halfPipe) write(p []byte) error {
	h.mu.Lock()
	defer h.mu.Unlock()
	if h.closed {
		return io.ErrClosedPipe
	}
	c := make([]byte, len(p))
	copy(c, p)
	h.chunks = append(h.chunks, c)
	h.cond.Broadcast()
	return nil
}

func (h *halfPipe) read(p []byte) (int, error) {
	h.mu.Lock()
	defer h.mu.Unlock()
	for len(h.chunks) == 0 {
		if h.closed {
			return 0, io.EOF
		}
		h.cond.Wait()
	}
	n := copy(p, h.chunks[0])
	if n == len(h.chunks[0]) {
		h.chunks = h.chunks[1:]
	} else {
		h.chunks[0] = h.chunks[0][n:]
	}
	return n, nil
}

func (h *halfPipe) close() {
	h.mu.Lock()
	h.closed = true
	h.cond.Broadcast()
	h.mu.Unlock()
}

// frameParser re-assembles frames from the bytes written in one direction.
type frameParser struct {
	buf []byte
}

func (fp *frameParser) feed(p []byte, emit func(typ, flags uint8, length uint32, sid uint64, payload []byte, raw []byte)) {
	fp.buf = append(fp.buf, p...)
	for {
		if len(fp.buf) < 14 {
			return
		}
		length := binary.BigEndian.Uint32(fp.buf[2:6])
		if uint64(len(fp.buf)) < 14+uint64(length) {
			return
		}
		payload := make([]byte, length)
		copy(payload, fp.buf[14:14+length])
		raw := make([]byte, 14+length)
		copy(raw, fp.buf[:14+length])
		emit(fp.buf[0], fp.buf[1], length, binary.BigEndian.Uint64(fp.buf[6:14]), payload, raw)
		fp.buf = fp.buf[14+length:]
	}
}

// memStream is one end of a bidirectional in-memory stream.
type memStream struct {
	rd, wr   *halfPipe
	from, to int
	mesh     *Mesh
	wmu      sync.Mutex
	parser   frameParser
}

func (s *memStream) Read(p []byte) (int, error) { return s.rd.read(p) }

func (s *memStream) Write(p []byte) (int, error) {
	s.wmu.Lock()
	defer s.wmu.Unlock()
	var werr error
	s.parser.feed(p, func(typ, flags uint8, length uint32, sid uint64, payload []byte, raw []byte) {
		ev := FrameEvent{From: s.from, To: s.to, Type: typ, Flags: flags, StreamID: sid, Length: length, Payload: payload}
		s.mesh.emit(ev)
		if s.mesh.drops(ev) {
			return
		}
		if err := s.wr.write(raw); err != nil {
			werr = err
		}
	})
	if werr != nil {
		return 0, werr
	}
	return len(p), nil
}

// inject writes a harness-made frame into this direction of the link.
func (s *memStream) inject(typ, flags uint8, sid uint64, payload []byte) error {
	raw := make([]byte, 14+len(payload))
	raw[0], raw[1] = typ, flags
	binary.BigEndian.PutUint32(raw[2:6], uint32(len(payload)))
	binary.BigEndian.PutUint64(raw[6:14], sid)
	copy(raw[14:], payload)
	s.wmu.Lock()
	defer s.wmu.Unlock()
	s.mesh.emit(FrameEvent{From: s.from, To: s.to, Type: typ, Flags: flags, StreamID: sid, Length: uint32(len(payload)), Payload: append([]byte(nil), payload...), Injected: true})
	return s.wr.write(raw)
}

func (s *memStream) StreamID() uint64 { return 0 }
func (s *memStream) CloseWrite() error {
	s.wr.close()
	return nil
}
func (s *memStream) Close() error {
	s.wr.close()
	s.rd.close()
	return nil
}
func (s *memStream) SetDeadline(t time.Time) error      { return nil }
func (s *memStream) SetReadDeadline(t time.Time) error  { return nil }
func (s *memStream) SetWriteDeadline(t time.Time) error { return nil }

type memAddr string

func (a memAddr) Network() string { return "mem" }
func (a memAddr) String() string  { return string(a) }

// memConn implements transport.PeerConn with exactly one stream (the control
// stream peer.Connection opens during the handshake).
type memConn struct {
	dialer bool
	st     *memStream
	once   sync.Once
	used   chan struct{}
	closed chan struct{}
	local  memAddr
	remote memAddr
}

func (c *memConn) take(ctx context.Context) (transport.Stream, error) {
	select {
	case <-c.used:
		// a second stream is never opened by peer.Connection; block until closed
		select {
		case <-c.closed:
			return nil, errors.New("closed")
		case <-ctx.Done():
			return nil, ctx.Err()
		}
	default:
	}
	close(c.used)
	return c.st, nil
}

func (c *memConn) OpenStream(ctx context.Context) (transport.Stream, error)   { return c.take(ctx) }
func (c *memConn) AcceptStream(ctx context.Context) (transport.Stream, error) { return c.take(ctx) }
func (c *memConn) Close() error {
	c.once.Do(func() { close(c.closed); c.st.Close() })
	return nil
}
func (c *memConn) LocalAddr() net.Addr                    { return c.local }
func (c *memConn) RemoteAddr() net.Addr                   { return c.remote }
func (c *memConn) IsDialer() bool                         { return c.dialer }
func (c *memConn) TransportType() transport.TransportType { return transport.TransportType("mem") }

// memTransport hands out the dialer end of a fresh link and delivers the
// accepting end to the target agent's peer manager.
type memTransport struct {
	mesh     *Mesh
	from, to int
}

func (t *memTransport) Dial(ctx context.Context, addr string, opts transport.DialOptions) (transport.PeerConn, error) {
	ab, ba := newHalfPipe(), newHalfPipe()
	d := &memConn{dialer: true, used: make(chan struct{}), closed: make(chan struct{}),
		local: memAddr(fmt.Sprintf("mem:%d", t.from)), remote: memAddr(fmt.Sprintf("mem:%d", t.to)),
		st: &memStream{rd: ba, wr: ab, from: t.from, to: t.to, mesh: t.mesh}}
	a := &memConn{dialer: false, used: make(chan struct{}), closed: make(chan struct{}),
		local: memAddr(fmt.Sprintf("mem:%d", t.to)), remote: memAddr(fmt.Sprintf("mem:%d", t.from)),
		st: &memStream{rd: ab, wr: ba, from: t.to, to: t.from, mesh: t.mesh}}
	t.mesh.lmu.Lock()
	t.mesh.links[[2]int{t.from, t.to}] = d.st
	t.mesh.links[[2]int{t.to, t.from}] = a.st
	t.mesh.lmu.Unlock()
	go func() {
		actx, cancel := context.WithTimeout(context.Background(), 30*time.Second)
		defer cancel()
		if _, err := t.mesh.Nodes[t.to].Agent.VerifPeerManager().Accept(actx, a); err != nil {
			a.Close()
		}
	}()
	return d, nil
}
func (t *memTransport) Listen(addr string, opts transport.ListenOptions) (transport.Listener, error) {
	return nil, errors.New("mem transport does not listen")
}
func (t *memTransport) Type() transport.TransportType { return transport.TransportType("mem") }
func (t *memTransport) Close() error                  { return nil }

// ---------------------------------------------------------------------------

type Node struct {
	Idx   int
	Agent *agent.Agent
	Cfg   *config.Config
	Dir   string
}

type Mesh struct {
	Nodes  []*Node
	tmu    sync.RWMutex
	tap    Tap
	filter Filter
	lmu    sync.Mutex
	links  map[[2]int]*memStream
}

func (m *Mesh) drops(ev FrameEvent) bool {
	m.tmu.RLock()
	f := m.filter
	m.tmu.RUnlock()
	return f != nil && f(ev)
}

// SetFilter installs (or removes, with nil) the link filter.
func (m *Mesh) SetFilter(f Filter) {
	m.tmu.Lock()
	m.filter = f
	m.tmu.Unlock()
}

// Inject delivers a harness-made frame to agent `to` as if agent `from` had
// written it on their link.
func (m *Mesh) Inject(from, to int, typ, flags uint8, sid uint64, payload []byte) error {
	m.lmu.Lock()
	st := m.links[[2]int{from, to}]
	m.lmu.Unlock()
	if st == nil {
		return fmt.Errorf("no link %d->%d", from, to)
	}
	return st.inject(typ, flags, sid, payload)
}

func (m *Mesh) emit(ev FrameEvent) {
	m.tmu.RLock()
	t := m.tap
	m.tmu.RUnlock()
	if t != nil {
		t(ev)
	}
}

// SetTap installs (or removes, with nil) the frame tap.
func (m *Mesh) SetTap(t Tap) {
	m.tmu.Lock()
	m.tap = t
	m.tmu.Unlock()
}

// New creates n agents (not yet connected). configure may adjust the default
// configuration of agent i before it is constructed.
func New(n int, scratch string, configure func(i int, cfg *config.Config)) (*Mesh, error) {
	m := &Mesh{links: map[[2]int]*memStream{}}
	for i := 0; i < n; i++ {
		dir, err := os.MkdirTemp(scratch, fmt.Sprintf("agent%d-", i))
		if err != nil {
			m.Close()
			return nil, err
		}
		cfg := config.Default()
		cfg.Agent.DataDir = dir
		cfg.Agent.LogLevel = "error"
		cfg.UDP.Enabled = false
		cfg.ICMP.Enabled = false
		if configure != nil {
			configure(i, cfg)
		}
		a, err := agent.New(cfg)
		if err != nil {
			os.RemoveAll(dir)
			m.Close()
			return nil, fmt.Errorf("agent %d: %w", i, err)
		}
		m.Nodes = append(m.Nodes, &Node{Idx: i, Agent: a, Cfg: cfg, Dir: dir})
	}
	for _, nd := range m.Nodes {
		if err := nd.Agent.Start(); err != nil {
			m.Close()
			return nil, fmt.Errorf("start agent %d: %w", nd.Idx, err)
		}
	}
	return m, nil
}

// Connect makes agent i dial agent j over a fresh in-memory link and waits
// until both ends have registered the peer.
func (m *Mesh) Connect(i, j int) error {
	ctx, cancel := context.WithTimeout(context.Background(), 30*time.Second)
	defer cancel()
	tr := &memTransport{mesh: m, from: i, to: j}
	if _, err := m.Nodes[i].Agent.VerifPeerManager().ConnectWithTransport(ctx, tr, fmt.Sprintf("mem:%d", j)); err != nil {
		return err
	}
	idI, idJ := m.Nodes[i].Agent.ID(), m.Nodes[j].Agent.ID()
	return WaitFor(30*time.Second, func() bool {
		return m.Nodes[i].Agent.VerifPeerManager().GetPeer(idJ) != nil && m.Nodes[j].Agent.VerifPeerManager().GetPeer(idI) != nil
	})
}

// Chain connects 0-1-2-...-(n-1), each agent dialling its successor.
func (m *Mesh) Chain() error {
	for i := 0; i+1 < len(m.Nodes); i++ {
		if err := m.Connect(i, i+1); err != nil {
			return fmt.Errorf("connect %d-%d: %w", i, i+1, err)
		}
	}
	return nil
}

func (m *Mesh) Close() {
	for _, nd := range m.Nodes {
		if nd == nil {
			continue
		}
		if nd.Agent != nil {
			done := make(chan struct{})
			go func(a *agent.Agent) { defer close(done); a.Stop() }(nd.Agent)
			select {
			case <-done:
			case <-time.After(10 * time.Second):
			}
		}
		if nd.Dir != "" {
			os.RemoveAll(nd.Dir)
		}
	}
}

// WaitFor polls cond until it holds or the timeout expires. The timeout is
// only a liveness bound (generous); correctness never depends on it.
func WaitFor(timeout time.Duration, cond func() bool) error {
	deadline := time.Now().Add(timeout)
	for {
		if cond() {
			return nil
		}
		if time.Now().After(deadline) {
			return errors.New("timeout")
		}
		time.Sleep(2 * time.Millisecond)
	}
}
