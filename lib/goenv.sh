# source me: Go environment for the verification harness (offline, local toolchain)
export GOFLAGS=-mod=mod GOPROXY=off GOSUMDB=off GOTOOLCHAIN=local GONOSUMCHECK=1 GONOSUMDB='*'
export VGO=go1.26.8
